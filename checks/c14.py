"""C14 - Events resolve their keys and play as correctly timed server commands.

Oracle: reference key chains and a reference model of event stream
composition written from the SuperCollider documentation (vlib/event_ref.py),
compared with the decoded NRT score; every server command seen is validated
against the Server Command Reference (vlib/cmdref.py).  See DESIGN.md C14.
"""

import hashlib
import itertools
import json
import logging
import math
from fractions import Fraction as F

from hypothesis import strategies as st

from vlib.core import Stage, Reject, sc3_origin
from vlib import osc_ref, cmdref, scgf, graph
from vlib import event_ref as ref

PROPERTY = 'C14'
LEVEL = 'exploration'
MODE = 'nrt'
SHARDS = {'quick': 2, 'thorough': 16}
MANIFEST = {
    'technique': 'property-based testing: generated events (pitch / amplitude '
                 '/ duration / server keys, scales and tunings), generated '
                 'instruments and generated Pbind/Pmono/Ppar/Pchain/Pdur/'
                 'Pdelta/Pn/Pseq compositions with rests, played in NRT mode; '
                 'the score (list and binary form decoded with an independent '
                 'OSC codec, every command validated against the Server '
                 'Command Reference) is compared with reference key chains '
                 'and a reference stream-composition model written from the '
                 'SuperCollider Event / Pattern Guide documentation',
    'category': 'exploration',
    'text': 'keys: every generated key subset must resolve (event(key) and '
            'the values actually played by a two-event stream) to the '
            'documented chain values, explicit keys first, 1e-9 relative. '
            'play: every played note must give exactly one /s_new bundle at '
            'logical time + latency with instrument, a never-seen node id of '
            'the client\'s range, the add-action number, the target id and '
            '(control, value) pairs for exactly the instrument\'s controls '
            'the event defines in description order, plus, iff the instrument '
            'has a gate, one /n_set id gate 0 at + sustain; rests send '
            'nothing. streams: event k of every player at start + sum of the '
            'preceding deltas under Ppar (per-child timelines), Pdur (cut at '
            'the requested total), Pdelta, Pchain, Pn, Pseq and Pmono; the '
            'schedule must end when the last player has waited its last '
            'delta (total duration).',
    'note': 'Trusted: vlib/event_ref.py (reference chains and composition '
            'model), vlib/osc_ref.py, vlib/cmdref.py, vlib/scgf.py (control '
            'order of the generated definitions). Tolerated readings and '
            'what is not asserted are listed in ASSUMPTIONS.',
}
RULE = (
    'keys stage: events with a generated subset of freq/midinote/note/degree '
    '(0-3 competing main keys), mtranspose/gtranspose/ctranspose/root/octave/'
    'harmonic/detune, an optional Scale (generated degree lists over 12-ET, '
    'n-ET for n in 5..31, unequal tunings, octave ratio 3), amp/db/velocity, '
    'dur/stretch/legato/sustain/delta; values from musical ranges (dyadic '
    'pools plus arbitrary floats). Non-trivial = at least two competing '
    'pitch main keys, or an explicit scale, or a main key together with a '
    'modifier of another stage. play stage: SynthDefs with 0-7 controls drawn '
    'from event-key names and free names, with/without gate, added to the '
    'default SynthDescLib; 1-3 events per case defining a subset of the '
    'controls plus foreign keys, played through play(**kw) / play(dict) / '
    'event(...).play() / a one-event Pbind (optionally a rest), from the main '
    'thread or a routine on SystemClock / TempoClock(1) at dyadic times, with '
    'add_action spellings (names, short names, numbers), int / Group / '
    'default targets and server latencies. Non-trivial = the event defines a '
    'proper non-empty subset of the controls or is a rest. streams stage: '
    '1-2 players over trees (depth <= 3, <= 5 leaves) of Pbind / Pmono '
    '(articulate on/off) leaves under Ppar / Pseq / Pn / Pchain / Pdur / '
    'Pdelta with Rest(d) durations, Rest-valued keys and type=rest, on one '
    'time grid per case (1/8, 1/10 or 1/3). Non-trivial = a rest and a Ppar '
    'or Pdur. Distinct by sha1 of the canonical case JSON. Times are compared '
    'exactly when every contributing number is a small dyadic rational, else '
    'with 1e-9 relative tolerance.')
ASSUMPTIONS = [
    'Reference chains are those of SuperCollider\'s Event help / Pattern '
    'Guide 07; an absent key takes its documented default. Port-documented '
    'deviations followed: amp = velocity / 127 when only velocity is given; '
    'harmonic applied to an explicit freq (SuperCollider\'s reading, explicit '
    'freq only detuned, is accepted as well); event(\'freq\') may or may not '
    'include harmonic (only the played frequency is asserted strictly).',
    'Note values are counted in steps of the scale\'s tuning (stepsPerOctave '
    '= len(tuning) for octave ratio 2, read from Scale.tuning.spo otherwise); '
    'tuning values are semitones as in SuperCollider and as produced by '
    'Tuning.et. Integer degrees only.',
    'Reverse conversions (degree or midinote from freq, db from amp, ...) are '
    'not asserted: the statement names the forward chains only.',
    'A control counts as defined by the event when its name is a key of the '
    'event (required, with the event\'s value) or it is freq and a pitch key '
    'is given; controls named like other chain / default keys of the note '
    'event (amp from db, sustain, pan, out, ...) may be present or absent '
    '(value checked when present); any other control must be absent. The '
    'port leaves chain-derived amp/sustain out; SuperCollider sends them.',
    'Order among bundles of different Ppar children at the same time is not '
    'asserted (the statement asks for each child\'s timeline only).',
    'Pmono: only the time and the marker of the bundle that starts or '
    'updates the synth for event k are asserted (/s_new or /n_set); release '
    'messages of mono synths are ignored.',
    'Exceptions raised inside a playing stream are caught by the clock and '
    'logged; they are read from the sc3.base.clock logger.',
    'The end of a player is read from the time of the score\'s closing '
    'marker (last logical time reached by the scheduler, tail 0).',
    'A mismatch that is exactly what the reference model of a known finding '
    'predicts (vlib/event_ref.py: leak / trunc flags; checks/c14.py: '
    'pitch_models, player_stops_after_rest_delta) is reported under that '
    'model\'s own kind, which is what classify_known keys on; every other '
    'mismatch keeps the kind of the oracle clause.',
    'Pitch modifiers: both SuperCollider\'s chain (every modifier always '
    'applies) and the dispatch the port documents in sc3/seq/event.py '
    '(modifiers apply together with the main key of their own stage: no '
    'ctranspose on a degree; constant defaults when no main key is given) '
    'are accepted.',
]

TWO32 = 2 ** 32
SEEN_IDS = set()
DEFS = {}
ERRORS = []
TAIL = [None]     # time of the closing marker of the last score read
ACTIONS = {'addToHead': 0, 'addToTail': 1, 'addBefore': 2, 'addAfter': 3,
           'addReplace': 4, 'head': 0, 'tail': 1, 'before': 2, 'after': 3,
           'replace': 4, 'h': 0, 't': 1, 'b': 2, 'a': 3, 'r': 4,
           0: 0, 1: 1, 2: 2, 3: 3, 4: 4}
# keys of the note event that have a default or a chain: a control of that
# name which the event does not give explicitly may be sent or not
CHAIN_NAMES = {'amp', 'db', 'velocity', 'midinote', 'note', 'degree', 'delta',
               'sustain', 'pan', 'out', 'trig', 'dur', 'legato', 'stretch',
               'octave', 'root', 'mtranspose', 'gtranspose', 'ctranspose',
               'harmonic', 'detune', 'freq'}


class _Catch(logging.Handler):
    def emit(self, record):
        if record.exc_info and record.exc_info[1] is not None:
            ERRORS.append(record.exc_info[1])


def setup(ctx):
    global main, Server, SynthDef, Out, DC, event, Rest, Scale, Tuning, play
    global Routine, TempoClock, SystemClock, Group, ep, lp, fp
    from sc3.base.main import main
    from sc3.synth.server import Server
    from sc3.synth.synthdef import SynthDef
    from sc3.synth.ugens import Out, DC
    from sc3.synth.node import Group
    from sc3.seq.event import event, Rest
    from sc3.seq.scale import Scale, Tuning
    from sc3.base.play import play
    from sc3.base.stream import Routine
    from sc3.base.clock import TempoClock, SystemClock
    from sc3.seq.patterns import eventpatterns as ep
    from sc3.seq.patterns import listpatterns as lp
    from sc3.seq.patterns import filterpatterns as fp
    lg = logging.getLogger('sc3.base.clock')
    lg.addHandler(_Catch())
    lg.setLevel(logging.ERROR)
    lg.propagate = False


# --- instruments -----------------------------------------------------------------------

def instrument(ctls):
    """SynthDef with the given [name, default] controls, added to the default
    SynthDescLib once per process. Returns (name, control names in
    description order read from the definition's bytes, has_gate)."""
    key = json.dumps(ctls)
    got = DEFS.get(key)
    if got is None:
        name = 'c14_' + hashlib.sha1(key.encode()).hexdigest()[:10]
        params = ', '.join(f'{n}={float(d)!r}' for n, d in ctls)
        body = ' + '.join(n for n, _ in ctls) or '0'
        ns = {'Out': Out, 'DC': DC}
        exec(f'def fn({params}):\n    Out.ar(0, DC.ar(0) * ({body}))\n', ns)
        sd = SynthDef(name, ns['fn'])
        sd.add()
        d = scgf.parse(graph.def_bytes(sd))[0]
        names = [n for n, _ in d['param_names']]
        got = DEFS[key] = (name, names, 'gate' in names)
    return got


GATED = [['freq', 440.0], ['amp', 0.1], ['gate', 1.0]]
UNGATED = [['freq', 440.0], ['amp', 0.1]]


# --- running and reading the score --------------------------------------------------------

def begin(latency):
    del ERRORS[:]
    main.reset()
    Server.default.latency = latency


def finish(v, tail=0):
    """Run the schedule; returns entries [(time, [msg lists], [wire msgs])]
    without the default group creation at 0 and the closing marker."""
    try:
        score = main.process(tail)
        lst = [list(e) for e in score.list]
        raw = bytes(score.raw)
    finally:
        Server.default.latency = 0
        main.reset()
    try:
        packets = osc_ref.split_size_prefixed(raw)
        bundles = [osc_ref.decode_packet(p) for p in packets]
    except osc_ref.OscError as e:
        v.fail('raw_score_undecodable', str(e))
        return None
    if len(bundles) != len(lst):
        v.fail('raw_score_length', f'{len(bundles)} packets, {len(lst)} '
               f'list entries')
        return None
    out = []
    for ent, b in zip(lst, bundles):
        wire = [m for _, m in osc_ref.flatten(b)]
        msgs = ent[1:]
        if len(wire) != len(msgs) or any(
                w.address != m[0] for w, m in zip(wire, msgs)):
            v.fail('raw_score_differs', f'{ent} vs {osc_ref.to_plain(b)}')
            return None
        if isinstance(ent[0], bool) or not isinstance(ent[0], (int, float)):
            v.fail('score_time_type', f'{ent}')
            return None
        if b.timetag != int(F(ent[0]) * TWO32):
            v.fail('raw_timetag', f'{ent[0]} encoded as {b.timetag}')
        for w in wire:
            for p in cmdref.validate(w):
                v.fail('command_reference', f'{ent}: {p}')
        out.append((ent[0], msgs, wire))
    if not out or out[0][0] != 0.0 or out[0][1] != [['/g_new', 1, 0, 0]]:
        v.fail('score_head', f'{out[:1]}')
        return None
    body = out[1:]
    tails = [i for i, e in enumerate(body) if e[1] == [['/c_set', 0, 0]]]
    if len(tails) != 1:
        v.fail('score_tail_marker', f'{[e[:2] for e in body]}')
        return None
    TAIL[0] = body[tails[0]][0]
    del body[tails[0]]
    return body


def raised(v):
    """Exceptions that escaped from scheduled tasks (logged by the clock)."""
    for e in ERRORS:
        where = sc3_origin(e)
        v.fail(f'stream_raised:{type(e).__name__}@{where}', repr(e))
    n = len(ERRORS)
    del ERRORS[:]
    return n


def split(entries, v):
    """-> (s_news, n_sets, others); s_new: dict(time, name, id, action,
    target, pairs); n_set: dict(time, id, pairs)."""
    snew, nset, other = [], [], []
    for t, msgs, wire in entries:
        if len(msgs) != 1:
            other.append((t, msgs))
            continue
        m = msgs[0]
        if m[0] == '/s_new' and len(m) >= 5 and len(m) % 2 == 1:
            snew.append({'time': t, 'name': m[1], 'id': m[2], 'action': m[3],
                         'target': m[4], 'pairs': list(zip(m[5::2], m[6::2])),
                         'msg': m})
        elif m[0] == '/n_set' and len(m) >= 2 and len(m) % 2 == 0:
            nset.append({'time': t, 'id': m[1],
                         'pairs': list(zip(m[2::2], m[3::2])), 'msg': m})
        else:
            other.append((t, msgs))
    return snew, nset, other


def time_ok(actual, expected, exact):
    if exact:
        return float(expected) == actual
    return ref.close(actual, expected, 1e-9, 2.0 ** -31)


def check_node_id(v, nid, where):
    ok = isinstance(nid, int) and not isinstance(nid, bool)
    if not v.check(ok, 'node_id_type', f'{where}: {nid!r}'):
        return
    cid = Server.default.client_id
    v.check(nid >> 26 == cid and (nid & 0x03FFFFFF) >= 1000,
            'node_id_outside_client_range', f'{where}: id {nid}, client {cid}')
    v.check(nid not in SEEN_IDS, 'node_id_reused', f'{where}: id {nid}')
    SEEN_IDS.add(nid)


# --- building sc3 values from specs ------------------------------------------------------------

def make_scale(spec):
    t = spec.get('tuning')
    if t is None:
        return Scale(spec['degrees'])
    if t['kind'] == 'et':
        return Scale(spec['degrees'], Tuning.et(t['n']))
    return Scale(spec['degrees'],
                 Tuning(t['semis'], t.get('ratio', 2.0), name='c14'))


def scale_spo(spec, obj):
    """stepsPerOctave of the scale: len(tuning) for octave ratio 2 (the
    port's note unit is the tuning step), else the library's own value."""
    if spec is None:
        return None
    semis, ratio = ref.tuning_semitones(spec)
    if ratio == 2.0:
        return float(len(semis))
    return float(obj.tuning.spo)


def event_keys(keys, scale):
    d = dict(keys)
    obj = None
    if scale is not None:
        obj = d['scale'] = make_scale(scale)
    return d, obj


MODEL_MODS = 'pitch_modifiers_dropped'
MODEL_TUNING = 'pitch_tuning_as_equal_steps'


def pitch_models(keys, scale, spo):
    """Reference chains of two known findings, [(kinds, Pitch)]: modifier
    keys are used only together with the main key of their own stage
    (degree: no ctranspose; no main key at all: the constant defaults); the
    scale's tuning is read as len(tuning) equal steps of a 2:1 octave."""
    out = []
    mains = [m for m in ref.PITCH_MAIN if m in keys]
    mods = None
    if mains == ['degree']:
        mods = {k: x for k, x in keys.items() if k != 'ctranspose'}
        mscale = scale
    elif not mains:
        mods = {k: x for k, x in keys.items()
                if k in ('harmonic', 'detune')}
        mscale = None
    tun = None
    if scale is not None and not ref.tuning_is_equal(scale):
        n = len(ref.tuning_semitones(scale)[0])
        tun = {'degrees': scale['degrees'], 'tuning': {'kind': 'et', 'n': n}}
    if mods is not None:
        out.append(((MODEL_MODS,), ref.resolve_pitch(
            mods, mscale, None if mscale is None else spo)))
    if tun is not None:
        out.append(((MODEL_TUNING,), ref.resolve_pitch(
            keys, tun, float(tun['tuning']['n']))))
    if mods is not None and tun is not None and mscale is not None:
        out.append(((MODEL_MODS, MODEL_TUNING), ref.resolve_pitch(
            mods, tun, float(tun['tuning']['n']))))
    return out


class Resolved:
    def __init__(self, keys, scale, scale_obj):
        spo = scale_spo(scale, scale_obj)
        self.pitch = ref.resolve_pitch(keys, scale, spo)
        self.models = pitch_models(keys, scale, spo)
        self.amp = ref.resolve_amp(keys)
        self.delta = ref.resolve_delta(keys)
        self.sustain = ref.resolve_sustain(keys)
        self.sustain_exact = all(
            ref.nice(keys.get(k, ref.DEFAULTS.get(k)))
            for k in (('sustain',) if 'sustain' in keys
                      else ('dur', 'legato', 'stretch')))
        self.delta_exact = all(
            ref.nice(keys.get(k, ref.DEFAULTS.get(k)))
            for k in (('delta',) if 'delta' in keys else ('dur', 'stretch')))


def check_pitch(v, r, kind, actual, values, detail):
    """`values(pitch) -> acceptable numbers`. A mismatch that is exactly
    what the model of a known finding predicts is reported under that
    model's kind(s) instead of `kind`."""
    if any(ref.close(actual, x) for x in values(r.pitch)):
        return True
    for kinds, pitch in r.models:
        if any(ref.close(actual, x) for x in values(pitch)):
            # the port documents its own dispatch (sc3/seq/event.py,
            # PitchKeys: "for every main key with its own modifiers the
            # other two can be calculated (without their modifiers); only
            # one main key should be used at a time"): that reading of the
            # chain is accepted beside SuperCollider's
            kinds = [k for k in kinds if k != MODEL_MODS]
            if not kinds:
                return True
            for k in kinds:
                v.fail(k, f'{kind}: {detail()}')
            return False
    v.fail(kind, detail())
    return False


def check_pairs(v, pairs, desc_names, keys, r, where):
    """(control, value) list of an /s_new against the event (see
    ASSUMPTIONS for required / optional / forbidden)."""
    names = [n for n in desc_names if n != 'gate']
    allowed, required = {}, []
    pitch_given = any(m in keys for m in ref.PITCH_MAIN)
    for n in names:
        if n == 'freq':
            allowed[n] = ('freq', None)
            if pitch_given:
                required.append(n)
        elif n in keys:
            allowed[n] = ('val', keys[n])
            required.append(n)
        elif n in CHAIN_NAMES:
            if n == 'amp':
                allowed[n] = ('val', r.amp)
            elif n == 'sustain':
                allowed[n] = ('val', float(r.sustain))
            elif n == 'delta':
                allowed[n] = ('val', float(r.delta))
            elif n in ref.DEFAULTS and n not in ('db', 'degree'):
                allowed[n] = ('val', ref.DEFAULTS[n])
            else:
                allowed[n] = ('any', None)
    got = [n for n, _ in pairs]
    if not v.check(all(isinstance(n, str) for n in got), 'param_name_type',
                   f'{where}: {pairs}'):
        return
    v.check(len(set(got)) == len(got), 'param_duplicate', f'{where}: {pairs}')
    extra = [n for n in got if n not in allowed]
    v.check(not extra, 'param_not_defined_by_event',
            f'{where}: {extra} sent; event keys {sorted(keys)}; controls '
            f'{desc_names}')
    missing = [n for n in required if n not in got]
    v.check(not missing, 'param_missing',
            f'{where}: {missing} not sent; event keys {sorted(keys)}; '
            f'controls {desc_names}; sent {pairs}')
    idx = [names.index(n) for n in got if n in names]
    v.check(idx == sorted(idx), 'param_order',
            f'{where}: sent {got}, description order {names}')
    for n, val in pairs:
        kind, exp = allowed.get(n, ('any', None))
        if isinstance(val, bool) or not isinstance(val, (int, float)):
            v.fail('param_value_type', f'{where}: {n}={val!r}')
        elif kind == 'freq':
            check_pitch(v, r, 'freq_played', val,
                        lambda p: (p.played, p.played_alt),
                        lambda: f'{where}: freq {val!r} sent, chain gives '
                                f'{r.pitch.played!r}; keys {keys}')
        elif kind == 'val':
            v.check(ref.close(val, exp), 'param_value',
                    f'{where}: {n}={val!r} sent, event gives {exp!r}')


# --- stage 'keys' --------------------------------------------------------------------------------

def pitch_labels(keys, scale):
    mains = [m for m in ref.PITCH_MAIN if m in keys]
    labels = [f'main_keys_{len(mains)}', 'zone_' + ref.pitch_zone(keys)]
    if scale is not None:
        t = scale.get('tuning')
        labels.append('scale_12et' if t is None else
                      'scale_' + t['kind'] +
                      ('_ratio3' if t.get('ratio', 2.0) != 2.0 else ''))
    return mains, labels


def run_keys(case, v):
    keys, scale = case['keys'], case.get('scale')
    name, desc_names, _ = instrument(GATED)
    d, sobj = event_keys(keys, scale)
    r = Resolved(keys, scale, sobj)
    mains, labels = pitch_labels(keys, scale)
    # 1. lookups (forward chains only)
    e = event(d)
    v.check(ref.close(e('amp'), r.amp), 'amp_lookup',
            lambda: f"{e('amp')!r} vs {r.amp!r}; keys {keys}")
    v.check(ref.close(e('delta'), r.delta), 'delta_lookup',
            lambda: f"{e('delta')!r} vs {float(r.delta)!r}; keys {keys}")
    v.check(ref.close(e('sustain'), r.sustain), 'sustain_lookup',
            lambda: f"{e('sustain')!r} vs {float(r.sustain)!r}; keys {keys}")
    if 'freq' not in keys and 'midinote' not in keys:
        check_pitch(v, r, 'note_lookup', e('note'), lambda p: (p.note,),
                    lambda: f"{e('note')!r} vs {r.pitch.note!r}; keys {keys} "
                            f"scale {scale}")
    if 'midinote' in keys or 'freq' not in keys:
        check_pitch(v, r, 'midinote_lookup', e('midinote'),
                    lambda p: (p.midinote,),
                    lambda: f"{e('midinote')!r} vs {r.pitch.midinote!r}; "
                            f"keys {keys} scale {scale}")
    check_pitch(v, r, 'freq_lookup', e('freq'), lambda p: p.freq,
                lambda: f"{e('freq')!r} vs {r.pitch.freq!r}; keys {keys} "
                        f"scale {scale}")
    # 2. what is played: two events of a stream, delta apart
    begin(0)
    d2, _ = event_keys(keys, scale)
    d2['instrument'] = name
    fp.Plen(ep.Pbind(d2), 2).play(None, 0)
    body = finish(v)
    if raised(v) or body is None:
        return {'nontrivial': False, 'labels': labels + ['raised']}
    snew, nset, other = split(body, v)
    v.check(not other, 'unexpected_message', f'{other}')
    times = [F(0), r.delta]
    if v.check(len(snew) == 2, 'synth_bundles',
               f'{len(snew)} /s_new bundles for 2 events: {body}'):
        snew.sort(key=lambda s: s['id'])
        for s, t in zip(snew, times):
            where = f'event at {float(t)}'
            v.check(time_ok(s['time'], t, r.delta_exact), 'event_time',
                    f"{where}: /s_new at {s['time']!r}; keys {keys}")
            v.check(s['name'] == name and s['action'] == 0
                    and s['target'] == 1, 'synth_header', f"{s['msg']}")
            check_node_id(v, s['id'], where)
            check_pairs(v, s['pairs'], desc_names, keys, r, where)
            offs = [n for n in nset if n['id'] == s['id']]
            if v.check(len(offs) == 1 and offs[0]['pairs'] == [('gate', 0)],
                       'gate_off_bundles', f'{where}: {offs}'):
                v.check(time_ok(offs[0]['time'], t + r.sustain,
                                r.delta_exact and r.sustain_exact),
                        'gate_off_time',
                        f"{where}: gate off at {offs[0]['time']!r}, expected "
                        f"{float(t + r.sustain)!r}; keys {keys}")
        v.check(len(nset) == 2, 'gate_off_bundles', f'{nset}')
    foreign_mod = (
        ('degree' in mains or 'note' in mains) and 'ctranspose' in keys
        or 'midinote' in mains and any(
            k in keys for k in ('mtranspose', 'gtranspose', 'root', 'octave'))
        or 'freq' in mains and 'ctranspose' in keys)
    return {'nontrivial': len(mains) >= 2 or scale is not None
            or bool(foreign_mod), 'labels': labels}


# --- stage 'play' -------------------------------------------------------------------------------

def run_play(case, v):
    name, desc_names, has_gate = instrument(case['ctls'])
    server = Server.default
    labels = ['gate' if has_gate else 'no_gate', 'launch_' + case['clock']]
    plans = []
    t = F(0)
    for i, e in enumerate(case['events']):
        t += F(e['wait']) if case['clock'] != 'main' else 0
        plans.append((i, t, e))
    begin(case['latency'])

    box = {}

    def fire(e):
        d, _ = event_keys(e['keys'], e.get('scale'))
        d['instrument'] = name
        if e.get('add_action') is not None:
            d['add_action'] = e['add_action']
        g = e.get('group')
        if isinstance(g, list):
            d['group'] = Group.basic_new(server, g[1])
        elif g is not None:
            d['group'] = g
        how = e['how']
        if how == 'play_kw':
            play(**d)
        elif how == 'play_dict':
            play(d)
        elif how == 'play_mixed':
            ks = sorted(d)
            a = {k: d[k] for k in ks[::2]}
            b = {k: d[k] for k in ks[1::2]}
            play(a, **b) if a else play(**b)
        elif how == 'event':
            box['last'] = event(d)
            box['last'].play()
        elif how == 'event_again':
            # same object, same keys, new values
            obj = box['last']
            for k, val in d.items():
                if k not in ('instrument', 'group', 'add_action', 'scale'):
                    obj[k] = val
            obj.play()
        else:   # a one-event stream, optionally a rest
            rest = e.get('rest')
            if rest == 'dur':
                d['dur'] = Rest(d.get('dur', 1.0))
            elif rest == 'type':
                d['type'] = 'rest'
            elif rest == 'key':
                k = e['rest_key']
                d[k] = Rest(d.get(k, 0))
            fp.Plen(ep.Pbind(d), 1).play(None, 0)

    def launcher():
        for i, t, e in plans:
            yield e['wait']
            fire(e)

    if case['clock'] == 'main':
        for i, t, e in plans:
            fire(e)
    else:
        clock = TempoClock(1) if case['clock'] == 'tempo' else SystemClock
        Routine(launcher).play(clock)
    body = finish(v, case.get('tail', 0))
    if case['clock'] == 'tempo':
        clock.stop()
    if raised(v) or body is None:
        return {'nontrivial': False, 'labels': labels + ['raised']}
    snew, nset, other = split(body, v)
    v.check(not other, 'unexpected_message', f'{other}')
    # events fire in plan order; node ids are allocated in that order
    snew.sort(key=lambda s: s['id'])
    sounding = [(i, t, e) for i, t, e in plans if not e.get('rest')]
    nontrivial = any(e.get('rest') for _, _, e in plans)
    if any(e.get('rest') for _, _, e in plans):
        labels.append('rest')
    if not v.check(len(snew) == len(sounding), 'synth_bundles',
                   f'{len(snew)} /s_new bundles for {len(sounding)} notes '
                   f'(and {len(plans) - len(sounding)} rests): {body}'):
        return {'nontrivial': nontrivial, 'labels': labels}
    lat = F(case['latency'])
    used = set()
    for s, (i, t, e) in zip(snew, sounding):
        where = f'event {i}'
        keys = e['keys']
        d, sobj = event_keys(keys, e.get('scale'))
        r = Resolved(keys, e.get('scale'), sobj)
        exact = ref.nice(case['latency'])
        v.check(time_ok(s['time'], t + lat, exact), 'event_time',
                f"{where}: /s_new at {s['time']!r}, logical time {float(t)} "
                f"+ latency {case['latency']}")
        v.check(s['name'] == name, 'synth_name', f"{where}: {s['msg']}")
        check_node_id(v, s['id'], where)
        aa = e.get('add_action')
        v.check(s['action'] == ACTIONS['addToHead' if aa is None else aa]
                and not isinstance(s['action'], bool), 'add_action',
                f"{where}: add_action {aa!r} sent as {s['action']!r}")
        g = e.get('group')
        target = 1 if g is None else (g[1] if isinstance(g, list) else g)
        v.check(s['target'] == target, 'target',
                f"{where}: group {g!r} sent as {s['target']!r}")
        check_pairs(v, s['pairs'], desc_names, keys, r, where)
        offs = [n for n in nset if n['id'] == s['id']]
        used.update(id(n) for n in offs)
        if has_gate:
            if v.check(len(offs) == 1 and offs[0]['pairs'] == [('gate', 0)],
                       'gate_off_bundles', f'{where}: {offs}'):
                v.check(time_ok(offs[0]['time'], t + lat + r.sustain,
                                exact and r.sustain_exact), 'gate_off_time',
                        f"{where}: gate off at {offs[0]['time']!r}, expected "
                        f"{float(t + lat + r.sustain)!r}; keys {keys}")
        else:
            v.check(not offs, 'gate_off_without_gate', f'{where}: {offs}')
        given = [n for n in desc_names if n in keys]
        if 0 < len(given) < len([n for n in desc_names if n != 'gate']):
            nontrivial = True
        labels.append('how_' + e['how'])
        labels.append('group_' + ('default' if g is None else
                                  'object' if isinstance(g, list) else 'int'))
        if aa is not None:
            labels.append('action_' + type(aa).__name__)
        if not ref.nice(case['latency']):
            labels.append('latency_nondyadic')
    v.check(all(id(n) in used for n in nset), 'unexpected_message',
            f'{[n["msg"] for n in nset if id(n) not in used]}')
    return {'nontrivial': nontrivial, 'labels': sorted(set(labels))}


# --- stage 'streams' -------------------------------------------------------------------------------

def marker(leaf, k):
    return 200 + 32 * leaf + k


def wrap(x):
    return Rest(x['rest']) if isinstance(x, dict) and 'rest' in x else x


def build(node, names):
    k = node['k']
    if k in ('pbind', 'pmono'):
        evs = node['events']
        keys = []
        for e in evs:
            for kk in e:
                if kk not in keys:
                    keys.append(kk)
        d = {}
        if k == 'pbind':
            d['instrument'] = names[node['inst']]
        for kk in keys:
            if kk == 'type':
                d[kk] = lp.Pseq([e.get('type', 'note') for e in evs])
            else:
                d[kk] = lp.Pseq([wrap(e[kk]) for e in evs])
        if k == 'pmono':
            return ep.Pmono(names[node['inst']], d, node['artic'])
        return ep.Pbind(d)
    if k == 'ppar':
        return ep.Ppar(*[build(x, names) for x in node['kids']])
    if k == 'pseq':
        return lp.Pseq([build(x, names) for x in node['kids']], node['rep'])
    if k == 'pn':
        return fp.Pn(build(node['kid'], names), node['rep'])
    if k == 'pchain':
        over = node['over']
        d = {kk: lp.Pseq([o[kk] for o in over]) for kk in over[0]}
        return ep.Pchain(ep.Pbind(d), build(node['kid'], names))
    if k == 'pdur':
        return fp.Pdur(node['dur'], build(node['kid'], names))
    if k == 'pdelta':
        return fp.Pdelta(node['t'], build(node['kid'], names))
    raise ValueError(k)


def walk(node):
    yield node
    for x in node.get('kids', ()):
        yield from walk(x)
    if 'kid' in node:
        yield from walk(node['kid'])


def leaf_events(node):
    for n in walk(node):
        if n['k'] in ('pbind', 'pmono'):
            for e in n['events']:
                yield n, e


def numbers_nice(case):
    ok = ref.nice(case['latency'])
    for p in case['players']:
        ok = ok and ref.nice(p['start'])
        for n in walk(p['tree']):
            if n['k'] == 'pdur':
                ok = ok and ref.nice(n['dur'])
            elif n['k'] == 'pdelta':
                ok = ok and ref.nice(n['t'])
            elif n['k'] == 'pchain':
                for o in n['over']:
                    ok = ok and all(ref.nice(o[x]) for x in
                                    ('dur', 'stretch', 'delta') if x in o)
            elif n['k'] in ('pbind', 'pmono'):
                for e in n['events']:
                    ok = ok and all(ref.nice(e[x]) for x in
                                    ('dur', 'stretch', 'delta') if x in e)
    return ok


KNOWN_MODELS = ['player_stops_after_rest_delta', 'pchain_hands_on_inner_event',
                'pdur_truncates_int_delta']


def expected_items(case, flags=()):
    """[(absolute time without latency, Item)] over all players. `flags`
    (names from KNOWN_MODELS) switch on the models of known findings: the
    player ends after the first event whose delta is a Rest object; Pchain
    hands its inner event to the following pattern; Pdur converts the cut
    delta to int."""
    out = []
    end = F(0)
    for p in case['players']:
        items, total = ref.evaluate(
            p['tree'], p.get('proto'), None,
            'pchain_hands_on_inner_event' in flags,
            'pdur_truncates_int_delta' in flags)
        if 'player_stops_after_rest_delta' in flags:
            for i, x in enumerate(items):
                if x.restdelta:
                    items = items[:i + 1]
                    total = x.t      # never rescheduled after this event
                    break
        out.extend((F(p['start']) + x.t, x) for x in items)
        end = max(end, F(p['start']) + total)
    return out, end


def compare_streams(case, exp, snew, nset, other, names, gates, exact):
    """-> list of (kind, detail); empty when the score is what `exp`
    (items, end of the last player) demands."""
    bad = []
    exp, end = exp
    lat = F(case['latency'])
    by_marker = {}
    for t, x in exp:
        if ref.is_rest(x.ev):
            continue
        by_marker.setdefault(ref.unrest(x.ev['freq']), []).append((t, x))
    rest_markers = {ref.unrest(x.ev['freq']) for t, x in exp
                    if ref.is_rest(x.ev)} - set(by_marker)
    onsets = {}
    mono_ids = set()
    note_ids = set()
    for s in snew:
        m = dict(s['pairs']).get('freq')
        onsets.setdefault(m, []).append(('/s_new', s['time'], s))
    for n in nset:
        d = dict(n['pairs'])
        if 'freq' in d:
            onsets.setdefault(d['freq'], []).append(('/n_set', n['time'], n))
    for m, got in sorted(onsets.items(), key=lambda kv: repr(kv[0])):
        if m not in by_marker:
            kind = 'rest_sent' if m in rest_markers else 'event_unexpected'
            bad.append((kind, f'marker {m}: {[g[2]["msg"] for g in got]}'))
    gate_used = set()
    for m, want in sorted(by_marker.items()):
        got = sorted(onsets.get(m, []), key=lambda g: g[1])
        want = sorted(want, key=lambda w: w[0])
        if len(got) != len(want):
            kind = 'event_missing' if len(got) < len(want) \
                else 'event_duplicated'
            bad.append((kind, f'marker {m}: played at {[g[1] for g in got]}, '
                        f'expected at {[float(w[0] + lat) for w in want]}'))
            continue
        for (addr, tm, rec), (t, x) in zip(got, want):
            where = f'marker {m} (leaf {x.leaf} event {x.k})'
            if not time_ok(tm, t + lat, exact):
                bad.append(('event_time', f'{where}: played at {tm!r}, '
                            f'expected {float(t + lat)!r}'))
            if x.mono:
                mono_ids.add(rec['id'])
                if addr == '/s_new' and rec['name'] != names[x.inst]:
                    bad.append(('synth_name', f"{where}: {rec['msg']}"))
                continue
            if addr != '/s_new':
                bad.append(('event_not_a_synth', f"{where}: {rec['msg']}"))
                continue
            note_ids.add(rec['id'])
            if rec['name'] != names[x.inst] or rec['action'] != 0 \
                    or rec['target'] != 1:
                bad.append(('synth_header', f"{where}: {rec['msg']}"))
            sent = dict(rec['pairs'])
            if 'amp' in x.ev and not (
                    'amp' in sent and ref.close(sent['amp'], x.ev['amp'])):
                bad.append(('param_value', f"{where}: amp {x.ev['amp']} "
                            f"vs {rec['msg']}"))
            offs = [n for n in nset if n['id'] == rec['id']
                    and 'freq' not in dict(n['pairs'])]
            gate_used.update(id(n) for n in offs)
            if gates[x.inst]:
                sus = ref.resolve_sustain(x.ev)
                sus_exact = exact and all(
                    ref.nice(x.ev.get(kk, ref.DEFAULTS.get(kk)))
                    for kk in (('sustain',) if x.ev.get('sustain') is not None
                               else ('dur', 'legato', 'stretch')))
                if len(offs) != 1 or offs[0]['pairs'] != [('gate', 0)]:
                    bad.append(('gate_off_bundles', f'{where}: {offs}'))
                elif not time_ok(offs[0]['time'], t + lat + sus, sus_exact):
                    bad.append(('gate_off_time',
                                f"{where}: gate off at {offs[0]['time']!r}, "
                                f"expected {float(t + lat + sus)!r}"))
            elif offs:
                bad.append(('gate_off_without_gate', f'{where}: {offs}'))
    # releases of mono synths (gate off or /n_free, also for a synth whose
    # first event was a rest) are not asserted; anything else is unexpected
    has_mono = any(x.mono for _, x in exp)
    for n in nset:
        if 'freq' in dict(n['pairs']) or id(n) in gate_used:
            continue
        if n['id'] not in note_ids and has_mono \
                and n['pairs'] == [('gate', 0)]:
            continue
        bad.append(('unexpected_message', f"{n['msg']}"))
    # the schedule ends when the last player has waited its last delta
    if not bad and not time_ok(TAIL[0], end, exact):
        bad.append(('stream_total_duration',
                    f'the last player ends at {TAIL[0]!r}, expected '
                    f'{float(end)!r}'))
    for t, msgs in other:
        ok = has_mono and all(
            m[0] == '/n_free' and not any(i in note_ids for i in m[1:])
            for m in msgs)
        if not ok:
            bad.append(('unexpected_message', f'{msgs}'))
    return bad


def _launcher(pat, clock, proto, start):
    def launcher():
        yield start
        pat.play(clock, 0, proto)
    return launcher


def run_streams(case, v):
    gname, _, _ = instrument(GATED)
    uname, _, _ = instrument(UNGATED)
    names, gates = [gname, uname], [True, False]
    begin(case['latency'])
    clocks = []
    for p in case['players']:
        pat = build(p['tree'], names)
        proto = p.get('proto')
        if proto is not None and p.get('proto_event'):
            proto = event(proto)
        if p['clock'] == 'tempo':
            clock = TempoClock(1)
            clocks.append(clock)
        elif p['clock'] == 'sys':
            clock = SystemClock
        else:
            clock = None

        if p['launch'] == 'main':
            pat.play(clock, 0, proto)
        else:
            Routine(_launcher(pat, clock, proto, p['start'])).play()
    body = finish(v)
    for c in clocks:
        c.stop()
    labels = set()
    kinds = {n['k'] for p in case['players'] for n in walk(p['tree'])}
    labels.update(kinds)
    rests = set()
    for p in case['players']:
        for n, e in leaf_events(p['tree']):
            if e.get('type') == 'rest':
                rests.add('rest_type')
            if ref.is_rest_value(e.get('dur')):
                rests.add('rest_dur')
            if ref.is_rest_value(e.get('freq')):
                rests.add('rest_key')
    labels.update(rests)
    exact = numbers_nice(case)
    labels.add('grid_dyadic' if exact else 'grid_other')
    nontrivial = bool(rests) and bool(kinds & {'ppar', 'pdur'})
    if raised(v) or body is None:
        labels.add('raised')
        return {'nontrivial': False, 'labels': sorted(labels)}
    snew, nset, other = split(body, v)
    for s in snew:
        check_node_id(v, s['id'], f"{s['msg']}")
    bad = compare_streams(case, expected_items(case), snew, nset, other,
                          names, gates, exact)
    if bad:
        # is the score exactly what the models of known findings give?
        subsets = [c for n in (1, 2, 3)
                   for c in itertools.combinations(KNOWN_MODELS, n)]
        for flags in subsets:
            if not compare_streams(case, expected_items(case, flags), snew,
                                   nset, other, names, gates, exact):
                for kind in flags:
                    v.fail(kind, 'the score is exactly what this known '
                           'behaviour predicts; first difference from the '
                           f'documented behaviour: {bad[0]}')
                    labels.add(kind)
                break
        else:
            for kind, detail in bad:
                v.fail(kind, detail)
    if len(case['players']) > 1:
        labels.add('two_players')
    return {'nontrivial': nontrivial, 'labels': sorted(labels)}


# --- known findings ------------------------------------------------------------------------------

def _merged_events(node):
    """Leaf events, and leaf events updated by a Pchain's outer values."""
    if node['k'] in ('pbind', 'pmono'):
        return node['events']
    if node['k'] == 'pchain':
        return [x.ev for x in ref.evaluate(node)[0]]
    return []


def _events_of(stage, case):
    if stage == 'keys':
        return [(case['keys'], case.get('scale'))]
    return [(e['keys'], e.get('scale')) for e in case['events']]


def classify_known(stage, case, viol):
    kind = viol.kind
    if stage in ('keys', 'play'):
        if kind.startswith(('sc3_raised:AttributeError@seq/event.py:',
                            'stream_raised:AttributeError@seq/event.py:')):
            scales = [case.get('scale')] if stage == 'keys' else \
                [e.get('scale') for e in case['events']]
            if any(s is not None for s in scales) \
                    and 'arrayed_param' in viol.detail:
                return 'scale_key_becomes_arrayed_param'
        evs = _events_of(stage, case)
        if kind == MODEL_TUNING and any(
                sc is not None and not ref.tuning_is_equal(sc)
                for k, sc in evs):
            return 'scale_tuning_ignored'
    if kind == 'stream_raised:ValueError@seq/event.py:__new__' \
            and "no event type 'rest'" in viol.detail:
        if stage == 'play' and any(e.get('rest') == 'type'
                                   for e in case['events']):
            return 'rest_type_unknown'
        if stage == 'streams' and any(
                e.get('type') == 'rest' for p in case['players']
                for _, e in leaf_events(p['tree'])):
            return 'rest_type_unknown'
    if stage == 'streams':
        if kind == 'player_stops_after_rest_delta' and any(
                ref.is_rest_value(e.get('dur')) for p in case['players']
                for _, e in leaf_events(p['tree'])):
            return 'rest_delta_stops_player'
        if kind == 'pdur_truncates_int_delta' and any(
                n['k'] == 'pdur' for p in case['players']
                for n in walk(p['tree'])) and any(
                    ref.delta_is_int(e) for p in case['players']
                    for n in walk(p['tree']) for e in _merged_events(n)):
            return 'pdur_int_delta_truncated'
        if kind == 'pchain_hands_on_inner_event' and any(
                n['k'] == 'pchain' and len(n['over']) < len(
                    ref.evaluate(n['kid'])[0])
                for p in case['players'] for n in walk(p['tree'])):
            return 'pchain_returns_inner_event'
        if kind == ('stream_raised:TypeError@seq/patterns/filterpatterns.py:'
                    '__embed__') and "'dict' object is not callable" \
                in viol.detail and any(
                    n['k'] == 'pdur' and not (p.get('proto')
                                              and p.get('proto_event'))
                    for p in case['players'] for n in walk(p['tree'])):
            return 'pdur_plain_dict_event'
    return None


# --- strategies ------------------------------------------------------------------------------------

def dy(lo, hi, den):
    return st.integers(int(lo * den), int(hi * den)).map(lambda x: x / den)


def number(pool, lo, hi, den=8):
    return st.one_of(st.sampled_from(pool), dy(lo, hi, den),
                     st.floats(lo, hi, allow_nan=False, width=64))


VAL = {
    'freq': number([110, 220.0, 261.625, 440, 441.5, 1000], 30, 3000, 4),
    'midinote': number([60, 61, 69, 48.5, 72, 36], 24, 108, 2),
    'note': number([0, 1, 2, 7, -5, 12, 4.5], -12, 24, 2),
    'degree': st.integers(-14, 21),
    'mtranspose': st.integers(-7, 7),
    'gtranspose': number([1, -1, 2, 0.5, 7], -6, 6, 2),
    'ctranspose': number([1, -1, 12, 0.25, -0.5, 7], -12, 12, 4),
    'root': number([1, 2, 5, 7, 11, 0.5], 0, 11, 2),
    'octave': number([3, 4, 6, 7, 4.5, 5], 2, 8, 2),
    'harmonic': st.sampled_from([2, 3, 0.5, 1.5, 4, 1.0, 5]),
    'detune': number([1, -1, 2.5, 0.3, -4], -6, 6, 4),
    'amp': number([0.5, 0.25, 1, 0.05, 0.3, 0], 0, 1, 64),
    'db': number([-6, -12, 0, -3, -40, 3], -60, 6, 2),
    'velocity': st.integers(0, 127),
    'dur': number([0.5, 0.25, 2, 0.125, 0.1, 0.3, 1.5], 0.125, 4, 8),
    'stretch': number([0.5, 2, 1.5, 0.25, 0.7, 1.0], 0.125, 3, 8),
    'legato': number([0.5, 1, 1.5, 0.9, 0.25, 2], 0.125, 2, 8),
    'sustain': number([0.5, 0.25, 2, 0.1, 1.25], 0.0625, 4, 16),
    'delta': number([0.5, 0.25, 2, 0.3, 1.0], 0.125, 4, 8),
}
MODS = ['mtranspose', 'gtranspose', 'ctranspose', 'root', 'octave', 'harmonic',
        'detune']


@st.composite
def scale_spec(draw):
    kind = draw(st.sampled_from(['12', '12', 'et', 'et', 'list', 'list']))
    if kind == '12':
        n, tuning = 12, None
    elif kind == 'et':
        n = draw(st.sampled_from([5, 7, 10, 17, 19, 22, 24, 31]))
        tuning = {'kind': 'et', 'n': n}
    else:
        n = draw(st.sampled_from([5, 7, 12, 12, 13]))
        ratio = draw(st.sampled_from([2.0, 2.0, 2.0, 3.0]))
        step = 12.0 * math.log2(ratio) / n
        jit = draw(st.lists(st.integers(-3, 3), min_size=n, max_size=n))
        semis = [0.0] + [i * step + jit[i] * step / 16 for i in range(1, n)]
        tuning = {'kind': 'list', 'semis': semis, 'ratio': ratio}
    size = draw(st.integers(2, min(n, 9)))
    degs = sorted(draw(st.lists(st.integers(0, n - 1), min_size=size,
                                max_size=size, unique=True)))
    if draw(st.booleans()):
        degs[0] = 0
        degs = sorted(set(degs))
    return {'degrees': degs, 'tuning': tuning}


@st.composite
def pitch_keys(draw, p_scale=0.3):
    nmain = draw(st.sampled_from([0, 1, 1, 1, 2, 2, 3]))
    order = list(draw(st.permutations(['midinote', 'note', 'degree'])))
    if draw(st.integers(0, 3)) == 0:      # an explicit freq ends the chain
        order.insert(draw(st.integers(0, 2)), 'freq')
    mains = order[:nmain]
    keys = {m: draw(VAL[m]) for m in mains}
    nmod = draw(st.sampled_from([0, 0, 1, 1, 2, 3, 7]))
    for m in draw(st.permutations(MODS))[:nmod]:
        keys[m] = draw(VAL[m])
    scale = draw(scale_spec()) if draw(st.floats(0, 1)) < p_scale else None
    return keys, scale


@st.composite
def other_keys(draw):
    keys = {}
    for k in draw(st.lists(st.sampled_from(['amp', 'db', 'velocity']),
                           max_size=2, unique=True)):
        keys[k] = draw(VAL[k])
    for k in draw(st.lists(st.sampled_from(
            ['dur', 'stretch', 'legato', 'sustain', 'delta', 'dur',
             'legato']), max_size=4, unique=True)):
        keys[k] = draw(VAL[k])
    return keys


@st.composite
def keys_case(draw):
    keys, scale = draw(pitch_keys())
    keys.update(draw(other_keys()))
    case = {'keys': keys}
    if scale is not None:
        case['scale'] = scale
    return case


CTL_POOL = ['freq', 'amp', 'pan', 'out', 'sustain', 'db', 'midinote', 'dur',
            'legato', 'detune', 'cutoff', 'rq', 'ffreq', 'bufnum', 'mod',
            'width', 'atk', 'rel', 'c1', 'c2', 'x']
FREE_VAL = st.one_of(st.integers(-4, 2000), dy(-8, 8, 16),
                     st.floats(-100, 5000, allow_nan=False, width=64))
ACTION_POOL = ['addToHead', 'addToTail', 'addBefore', 'addAfter', 'addReplace',
               'head', 'tail', 'before', 'after', 'replace', 'h', 't', 'b',
               'a', 'r', 0, 1, 2, 3, 4]


@st.composite
def play_case(draw):
    names = draw(st.lists(st.sampled_from(CTL_POOL), max_size=7, unique=True))
    if draw(st.booleans()):
        names.insert(draw(st.integers(0, len(names))), 'gate')
    ctls = [[n, 1.0 if n == 'gate' else draw(st.sampled_from(
        [0.0, 0.5, 1.0, 440.0, 0.1]))] for n in names]
    clock = draw(st.sampled_from(['main', 'sys', 'sys', 'tempo', 'tempo']))
    events = []
    for _ in range(draw(st.integers(1, 3))):
        keys = {}
        own = [n for n in names if n != 'gate']
        if own:
            for n in draw(st.lists(st.sampled_from(own), max_size=len(own),
                                   unique=True)):
                keys[n] = draw(VAL[n]) if n in VAL else draw(FREE_VAL)
        for n in draw(st.lists(st.sampled_from(
                ['foo', 'lag', 'cutoff', 'pan', 'x', 'amp']), max_size=2,
                unique=True)):
            keys.setdefault(n, draw(FREE_VAL) if n not in VAL
                            else draw(VAL[n]))
        scale = None
        if draw(st.integers(0, 2)) == 0:
            pk, scale = draw(pitch_keys(0.1))
            for k, val in pk.items():
                keys.setdefault(k, val)
        for k in draw(st.lists(st.sampled_from(
                ['dur', 'legato', 'stretch', 'sustain']), max_size=2,
                unique=True)):
            keys.setdefault(k, draw(VAL[k]))
        e = {'wait': draw(dy(0, 2, 8)), 'keys': keys,
             'how': draw(st.sampled_from(['play_kw', 'play_dict', 'play_mixed',
                                          'event', 'stream', 'stream']))}
        if scale is not None:
            e['scale'] = scale
        if draw(st.booleans()):
            e['add_action'] = draw(st.sampled_from(ACTION_POOL))
        g = draw(st.sampled_from([None, None, 'int', 'obj']))
        if g == 'int':
            e['group'] = draw(st.sampled_from([0, 1, 2, 7, 1000, 67108865]))
        elif g == 'obj':
            e['group'] = ['group', draw(st.sampled_from([1, 5, 77, 1001]))]
        if e['how'] == 'stream' and draw(st.integers(0, 2)) == 0:
            e['rest'] = draw(st.sampled_from(['dur', 'key', 'key', 'type']))
            if e['rest'] == 'key':
                e['rest_key'] = draw(st.sampled_from(
                    sorted(keys) + ['freq', 'amp', 'foo']))
        if clock == 'main' and e['how'] == 'stream':
            e['how'] = 'event'      # ids are compared in firing order
            e.pop('rest', None)
            e.pop('rest_key', None)
        events.append(e)
        chain = {'degree', 'note', 'midinote', 'freq', 'octave', 'root',
                 'mtranspose', 'gtranspose', 'ctranspose', 'harmonic',
                 'detune', 'db', 'velocity'}
        # (playing writes the resolved freq/amp back into the event, as in
        # SuperCollider: only events without keys of those chains are
        # played twice)
        if e['how'] == 'event' and scale is None and not (chain & set(keys)) \
                and draw(st.integers(0, 1)) == 0:
            # the same event object is played again after its values were
            # changed (same keys, new numbers): the second bundle carries
            # the new values
            import copy
            e2 = copy.deepcopy(e)
            e2['how'] = 'event_again'
            e2['wait'] = draw(dy(0, 2, 8))
            for k in sorted(e2['keys']):
                if k in VAL and k not in ('degree', 'note', 'midinote',
                                          'freq', 'octave', 'root',
                                          'mtranspose', 'gtranspose',
                                          'ctranspose', 'harmonic',
                                          'detune', 'scale'):
                    e2['keys'][k] = draw(VAL[k])
                elif k not in VAL:
                    e2['keys'][k] = draw(FREE_VAL)
            events.append(e2)
    return {'ctls': ctls, 'clock': clock, 'events': events,
            'latency': draw(st.sampled_from(
                [0, 0, 0.125, 0.25, 0.5, 0.2, 0.05, 1])),
            'tail': draw(st.sampled_from([0, 1]))}


GRIDS = {'dyadic': F(1, 8), 'tenth': F(1, 10), 'third': F(1, 3)}


def gridnum(u, k):
    x = u * k
    return float(x) if x.denominator != 1 else int(x)


@st.composite
def stream_case(draw):
    grid = draw(st.sampled_from(['dyadic', 'dyadic', 'dyadic', 'tenth',
                                 'third']))
    u = GRIDS[grid]
    rest_mode = draw(st.sampled_from(
        ['none', 'key', 'key', 'key', 'dur', 'dur', 'mixed', 'type']))
    counter = [0]

    def dur():
        return gridnum(u, draw(st.integers(1, 8)))

    def leaf(mono_ok=True):
        n = draw(st.integers(1, 4))
        L = counter[0]
        counter[0] += 1
        mono = mono_ok and draw(st.integers(0, 4)) == 0
        const = {}
        if draw(st.integers(0, 2)) == 0:
            const['legato'] = draw(st.sampled_from([0.5, 1, 1.5, 0.9, 0.25]))
        whole = draw(st.integers(0, 5)) == 0     # int durs and stretch
        if whole:
            const['stretch'] = draw(st.sampled_from([1, 2]))
        elif draw(st.integers(0, 3)) == 0:
            const['stretch'] = draw(st.sampled_from([0.5, 2, 1, 1.5]))
        if draw(st.integers(0, 3)) == 0:
            const['amp'] = draw(st.sampled_from([0.5, 0.25, 0.3]))
        per_sustain = draw(st.integers(0, 4)) == 0
        evs = []
        for k in range(n):
            e = {'freq': marker(L, k),
                 'dur': draw(st.integers(1, 3)) if whole else dur()}
            e.update(const)
            if per_sustain:
                e['sustain'] = gridnum(u, draw(st.integers(1, 6)))
            r = None
            if rest_mode != 'none' and draw(st.integers(0, 2)) == 0:
                r = rest_mode if rest_mode != 'mixed' else draw(
                    st.sampled_from(['key', 'dur']))
            if r == 'key':
                e['freq'] = {'rest': e['freq']}
            elif r == 'dur':
                e['dur'] = {'rest': e['dur']}
            elif r == 'type' and not mono:
                e['type'] = 'rest'
            elif r == 'type':       # Pmono sets the event type itself
                e['freq'] = {'rest': e['freq']}
            evs.append(e)
        node = {'k': 'pmono' if mono else 'pbind', 'id': L,
                'inst': draw(st.integers(0, 1)), 'events': evs}
        if mono:
            node['artic'] = draw(st.booleans())
        return node

    def plain(depth):
        """Sequences without filler events (Pchain operands)."""
        kind = draw(st.sampled_from(['leaf', 'leaf', 'pn', 'pseq'])) \
            if depth > 0 else 'leaf'
        if kind == 'pn':
            return {'k': 'pn', 'kid': leaf(False), 'rep': 2}
        if kind == 'pseq':
            return {'k': 'pseq', 'kids': [leaf(False), leaf(False)], 'rep': 1}
        return leaf(False)

    def tree(depth):
        if depth <= 0 or counter[0] >= 4:
            return leaf()
        kind = draw(st.sampled_from(
            ['leaf', 'ppar', 'ppar', 'ppar', 'pseq', 'pn', 'pchain',
             'pchain_then', 'pdur', 'pdur', 'pdelta']))
        if kind == 'leaf':
            return leaf()
        if kind == 'pchain_then':
            # a Pchain followed in sequence by something else
            first = tree_kind('pchain', depth)
            if draw(st.booleans()):
                return {'k': 'pn', 'kid': first, 'rep': 2}
            return {'k': 'pseq', 'kids': [first, tree(depth - 1)], 'rep': 1}
        return tree_kind(kind, depth)

    def tree_kind(kind, depth):
        if kind == 'ppar':
            return {'k': 'ppar', 'kids': [tree(depth - 1) for _ in range(
                draw(st.integers(2, 3)))]}
        if kind == 'pseq':
            return {'k': 'pseq', 'kids': [tree(depth - 1) for _ in range(2)],
                    'rep': draw(st.sampled_from([1, 1, 2]))}
        if kind == 'pn':
            return {'k': 'pn', 'kid': tree(depth - 1),
                    'rep': draw(st.integers(1, 3))}
        if kind == 'pdelta':
            return {'k': 'pdelta', 't': gridnum(u, draw(st.integers(0, 6))),
                    'kid': tree(depth - 1)}
        if kind == 'pchain':
            kid = plain(depth - 1)
            n = len(ref.evaluate(kid)[0])
            okeys = draw(st.lists(st.sampled_from(
                ['amp', 'legato', 'stretch', 'sustain']), min_size=1,
                max_size=2, unique=True))
            pool = {'amp': [0.5, 0.25, 1.0], 'legato': [0.5, 1, 2],
                    'stretch': [0.5, 2, 1], 'sustain': [gridnum(u, 1),
                                                        gridnum(u, 3)]}
            over = [{kk: draw(st.sampled_from(pool[kk])) for kk in okeys}
                    for _ in range(draw(st.integers(max(1, n - 1), n + 1)))]
            return {'k': 'pchain', 'over': over, 'kid': kid}
        kid = tree(depth - 1)
        total = ref.evaluate(kid)[1]
        steps = max(1, int(total / u * 2))
        k = draw(st.integers(1, steps + 4))
        d = u * k / 2
        if grid != 'dyadic':
            d += u / 4        # never on an event boundary (float sums)
        if grid == 'dyadic' and draw(st.integers(0, 3)) == 0 and not any(
                n['k'] in ('ppar', 'pchain', 'pmono') for n in walk(kid)):
            # an event that ends a little (less than the tolerance 0.001)
            # before the limit counts as reaching it
            eps = draw(st.sampled_from([F(1, 2048), F(3, 4096)]))
            leaves = [n for n in walk(kid) if n['k'] == 'pbind'
                      and n['events']]
            if leaves:
                lf = draw(st.sampled_from(leaves))
                ev = lf['events'][draw(st.integers(0, len(lf['events']) - 1))]
                if not ref.is_rest_value(ev.get('dur')) and \
                        not ref.is_rest_value(ev.get('delta')):
                    if ev.get('delta') is not None:
                        ev['delta'] = float(F(ev['delta']) - eps)
                    else:
                        stretch = F(ev.get('stretch', 1))
                        ev['dur'] = float(F(ev.get('dur', 1.0))
                                          - eps / stretch)
                    its2, tot2 = ref.evaluate(kid)
                    for i, x in enumerate(its2):
                        end = its2[i + 1].t if i + 1 < len(its2) else tot2
                        if (end * 8).denominator != 1 and end > 0:
                            d = end + eps
                            break
        return {'k': 'pdur', 'dur': float(d) if d.denominator != 1
                else int(d), 'kid': kid}

    players = []
    for _ in range(draw(st.sampled_from([1, 1, 2]))):
        counter_before = counter[0]
        t = tree(draw(st.sampled_from([1, 2, 2, 3])))
        p = {'tree': t, 'start': gridnum(u, draw(st.integers(0, 8))),
             'clock': draw(st.sampled_from(['none', 'sys', 'tempo'])),
             'launch': draw(st.sampled_from(['routine', 'routine', 'main']))}
        if p['launch'] == 'main':
            p['start'] = 0
        has_pdur = any(n['k'] == 'pdur' for n in walk(t))
        pr = draw(st.sampled_from(
            [None, 'dict', 'event', 'event', 'event', 'event'] if has_pdur
            else [None, None, 'dict', 'event', 'event']))
        if pr is not None:
            p['proto'] = {'legato': draw(st.sampled_from([0.5, 1, 0.75]))}
            p['proto_event'] = pr == 'event'
        players.append(p)
    return {'players': players,
            'latency': draw(st.sampled_from([0, 0, 0.125, 0.25, 0.2]))}


def stages(ctx):
    return [
        Stage('keys', run_keys, keys_case(), quick=2000, thorough=8000),
        Stage('play', run_play, play_case(), quick=2000, thorough=8000),
        Stage('streams', run_streams, stream_case(), quick=2500,
              thorough=10000),
    ]
